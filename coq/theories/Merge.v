(* Merge.v — the merge method of every message class and RunningOrder.__add__,
   written to follow the Python (same order of lookups, checks and edits).
   Definitions only. *)
From Coq Require Import List Bool Arith.
Import ListNotations.
From Mos Require Import Str Xml Outcome Seq Elements Classify Messages.

(* ---- the keyed-sequence view of roCreate's children (stories) and of a story's
   children (items): find_child looks at the tag and at the text of the <tag>ID child *)
Definition ckey (tag idtag : str) (x : xml) : kres str :=
  if has_tag tag x then
    match find idtag (kids_of x) with
    | None => KKey None                 (* no ID tag: find_child passes over it; it has no ID *)
    | Some e => KKey (text_of e)
    end
  else KOther.
Definition skey : xml -> kres str := ckey t_story t_storyID.
Definition ikey : xml -> kres str := ckey t_item t_itemID.

(* _find_by_id(parent, 'story' | 'item', id) *)
Definition find_story (id : option str) (l : list xml) : fc := lookup skey str_eqb id l.
Definition find_item (id : option str) (l : list xml) : fc := lookup ikey str_eqb id l.

(* run an item-level edit inside the story with the given ID *)
Definition with_story (sid : option str) (kids : list xml) (missing : res (list xml))
           (f : list xml -> res (list xml)) : res (list xml) :=
  match find_story sid kids with
  | FAttr => fail kids PyAttributeError
  | FNone => missing
  | FFound i =>
    match nth_error kids i with
    | None => fail kids PyIndexError
    | Some s =>
      map_res (fun ik => update_nth i (fun s' => set_kids s' ik) kids) (f (kids_of s))
    end
  end.

(* roMetadataReplace: where a carried element goes *)
Fixpoint md_schema_index (schema : option str) (l : list xml) : option nat :=
  match l with
  | [] => None
  | c :: r =>
    if has_tag t_mosExternalMetadata c && ostr_eqb (findtext t_mosSchema (kids_of c)) schema
    then Some O else option_map S (md_schema_index schema r)
  end.
Definition md_index (src : xml) (l : list xml) : option nat :=
  if has_tag t_mosExternalMetadata src
  then md_schema_index (findtext t_mosSchema (kids_of src)) l
  else find_index (tag_of src) l.
Fixpoint md_loop (srcs : list xml) (kids : list xml) : list xml :=
  match srcs with
  | [] => kids
  | s :: r =>
    md_loop r (match md_index s kids with
               | Some i => replace_at i s kids
               | None => kids ++ [s]
               end)
  end.

(* ---- the merges.  Story-level and item-level ones act on the children of roCreate. *)
Section Merge.
Variable o : oracles.

(* {story.id for story in ro.stories}: evaluates the story listing *)
Definition known_story_ids (kids : list xml) : list (option str) :=
  map story_id (findall t_story kids).

Definition merge_kids (k : mclass) (m b : xml) (rc : xml) : res (list xml) :=
  let kids := kids_of rc in
  let mex := msg_id_exn m in
  (* story-level generic edits *)
  let s_delete := delete_loop skey str_eqb mex StoryNotFound in
  let s_dups := insert_dups mex story_id ostr_eqb DuplicateStory (known_story_ids kids) in
  (* item-level generic edits *)
  let i_delete := delete_loop ikey str_eqb mex ItemNotFound in
  let i_insert := gen_insert ikey str_eqb mex in
  let i_replace := gen_replace ikey str_eqb mex in
  let i_move := gen_move ikey str_eqb mex in
  let missing := raise_merge mex kids in
  match k with
  | StorySend =>
    match convert_story_send b with
    | None => fail kids PyAttributeError
    | Some story =>
      match find_story (story_id story) kids with
      | FAttr => fail kids PyAttributeError
      | FNone => emit mex StoryNotFound kids
      | FFound i => ok (replace_with i [story] kids)
      end
    end
  | StoryAppend => ok (kids ++ carried t_story b)
  | StoryDelete => s_delete (id_tags t_storyID b) kids
  | StoryInsert =>
    match find_story (first_story_id b) kids with
    | FAttr => fail kids PyAttributeError
    | FNone => raise_merge mex kids
    | FFound i =>
      match ro_stories_err o rc with
      | Some e => fail kids e
      | None => s_dups i (carried t_story b) kids
      end
    end
  | StoryMove =>
    match story_move_source b with
    | None => raise_merge mex kids
    | Some src => gen_move skey str_eqb mex (story_move_target b) [src] kids
    end
  | StoryReplace =>
    match find_story (first_story_id b) kids with
    | FAttr => fail kids PyAttributeError
    | FNone => raise_merge mex kids
    | FFound i =>
      match carried t_story b with
      | [] => raise_merge mex kids
      | new => ok (replace_with i new kids)
      end
    end
  | ItemDelete =>
    with_story (first_story_id b) kids missing (i_delete (id_tags t_itemID b))
  | ItemInsert =>
    with_story (first_story_id b) kids missing (i_insert (first_item_id b) (carried t_item b))
  | ItemMoveMultiple =>
    match first_story_id b with
    | None => raise_merge mex kids
    | sid =>
      with_story sid kids missing
        (fun ik =>
           match imm_target b with
           | None => fail ik PyIndexError
           | Some tgt => i_move tgt (imm_sources b) ik
           end)
    end
  | ItemReplace =>
    with_story (first_story_id b) kids missing (i_replace (first_item_id b) (carried t_item b))
  | MetaDataReplace => ok (md_loop (kids_of b) kids)
  | ReadyToAir => ok kids
  | EAStoryReplace => gen_replace skey str_eqb mex (ea_target_id t_storyID b) (ea_carried t_story b) kids
  | EAItemReplace =>
    with_story (ea_target_id t_storyID b) kids missing
      (i_replace (ea_target_id t_itemID b) (ea_carried t_item b))
  | EAStoryDelete => s_delete (ea_source_ids t_storyID b) kids
  | EAItemDelete =>
    with_story (ea_target_id t_storyID b) kids (emit mex StoryNotFound kids)
      (i_delete (ea_source_ids t_itemID b))
  | EAStoryInsert =>
    match locate_target skey str_eqb (ea_target_id t_storyID b) kids with
    | TAttr => fail kids PyAttributeError
    | TMerge => raise_merge mex kids
    | t =>
      match ro_stories_err o rc with
      | Some e => fail kids e
      | None =>
        s_dups (match t with TAt i => i | _ => length kids end) (ea_carried t_story b) kids
      end
    end
  | EAItemInsert =>
    with_story (ea_target_id t_storyID b) kids missing
      (i_insert (ea_target_id t_itemID b) (ea_carried t_item b))
  | EAStorySwap => gen_swap skey str_eqb mex (ea_first_source_ids t_storyID b) kids
  | EAItemSwap =>
    with_story (ea_target_id t_storyID b) kids missing
      (gen_swap ikey str_eqb mex (ea_first_source_ids t_itemID b))
  | EAStoryMove =>
    gen_move skey str_eqb mex (ea_target_id t_storyID b) (ea_source_ids t_storyID b) kids
  | EAItemMove =>
    with_story (ea_target_id t_storyID b) kids missing
      (i_move (ea_target_id t_itemID b) (ea_first_source_ids t_itemID b))
  (* not merges on roCreate's children; handled in [merge] *)
  | RunningOrder | RunningOrderReplace | RunningOrderEnd => ok kids
  end.

(* msg.merge(ro) on the whole running-order document *)
Definition merge (k : mclass) (ro m : xml) : res xml :=
  match base_of k m with
  | None => fail ro PyAttributeError
  | Some b =>
    match k with
    | RunningOrder => raise_merge (msg_id_exn m) ro
    | RunningOrderReplace =>
      match find_index t_roCreate (kids_of ro) with
      | None => fail ro PyTypeError
      | Some i => ok (set_kids ro (replace_at i (set_tag b t_roCreate) (kids_of ro)))
      end
    | RunningOrderEnd =>
      ok (set_kids ro (kids_of ro ++ [Elem t_mosromgrmeta [] None None [b]]))
    | _ =>
      match find t_roCreate (kids_of ro) with
      | None => fail ro PyTypeError
      | Some rc =>
        map_res (fun k' => set_kids ro (update_first t_roCreate (fun e => set_kids e k') (kids_of ro)))
                (merge_kids k m b rc)
      end
    end
  end.

(* RunningOrder.__add__ *)
Definition add (ro : xml) (k : mclass) (m : xml) : res xml :=
  if ro_completed ro then fail ro MosCompletedMergeError else merge k ro m.

End Merge.
