(* Merge.v — the merge method of every message class and RunningOrder.__add__,
   written to follow the Python (same order of lookups, checks and edits).
   Definitions only. *)
From Coq Require Import List Bool Arith.
Import ListNotations.
From Mos Require Import Str Xml Seq Outcome Elements Classify Messages.

(* ---- find_child guarded by "a blank ID never matches" *)
Inductive fc := FFound (i : nat) | FNone | FAttr.

Fixpoint find_child_from (tag idtag id : str) (l : list xml) (i : nat) : fc :=
  match l with
  | [] => FNone
  | c :: r =>
    if has_tag tag c then
      match find idtag (kids_of c) with
      | None => FAttr                      (* child.find('<tag>ID').text on None *)
      | Some e => if ostr_eqb (text_of e) (Some id) then FFound i
                  else find_child_from tag idtag id r (S i)
      end
    else find_child_from tag idtag id r (S i)
  end.
Definition find_by_id (tag idtag : str) (id : option str) (l : list xml) : fc :=
  match id with
  | None => FNone
  | Some s => find_child_from tag idtag s l 0
  end.
Definition find_story := find_by_id t_story t_storyID.
Definition find_item := find_by_id t_item t_itemID.

(* ---- raising and warning evaluate self.message_id inside the f-string *)
Definition merge_error (m : xml) : exn :=
  match msg_id_exn m with Some e => e | None => MosMergeError end.
Definition raise_merge {S} (m : xml) (s : S) : res S := fail s (merge_error m).
Definition emit {S} (m : xml) (w : warn) (s : S) : res S :=
  match msg_id_exn m with Some e => fail s e | None => R s [w] None end.

(* ---- generic edits on a child list *)

(* for each ID: remove the first match, or warn *)
Fixpoint delete_loop (tag idtag : str) (w : warn) (m : xml) (ids : list (option str))
         (kids : list xml) : res (list xml) :=
  match ids with
  | [] => ok kids
  | id :: r =>
    match find_by_id tag idtag id kids with
    | FAttr => fail kids PyAttributeError
    | FFound i => delete_loop tag idtag w m r (remove_at i kids)
    | FNone => bind (emit m w kids) (delete_loop tag idtag w m r)
    end
  end.

(* insert stories from index i, skipping (with a warning) those whose ID is already known;
   the index advances only on insertion *)
Fixpoint insert_dups (m : xml) (seen : list (option str)) (i : nat) (new : list xml)
         (kids : list xml) : res (list xml) :=
  match new with
  | [] => ok kids
  | s :: r =>
    let id := story_id s in
    if mem_ostr id seen then bind (emit m DuplicateStory kids) (insert_dups m seen i r)
    else insert_dups m (id :: seen) (S i) r (insert_at i s kids)
  end.

(* locate every source, rejecting unknown ones, the target itself and repeats *)
Inductive vres := VOk (ps : list nat) | VMerge | VAttr.
Fixpoint validate_sources (tag idtag : str) (tp : option nat) (acc : list nat)
         (ids : list (option str)) (kids : list xml) : vres :=
  match ids with
  | [] => VOk (rev acc)
  | id :: r =>
    match find_by_id tag idtag id kids with
    | FAttr => VAttr
    | FNone => VMerge
    | FFound p =>
      if (match tp with Some t => Nat.eqb p t | None => false end) || memn p acc then VMerge
      else validate_sources tag idtag tp (p :: acc) r kids
    end
  end.

(* target lookup for moves: None = end *)
Inductive tres := TEnd | TAt (i : nat) | TMerge | TAttr.
Definition locate_target (tag idtag : str) (tgt : option str) (kids : list xml) : tres :=
  match tgt with
  | None => TEnd
  | Some _ =>
    match find_by_id tag idtag tgt kids with
    | FFound i => TAt i
    | FNone => TMerge
    | FAttr => TAttr
    end
  end.

Definition gen_move (tag idtag : str) (m : xml) (tgt : option str) (srcs : list (option str))
           (kids : list xml) : res (list xml) :=
  match locate_target tag idtag tgt kids with
  | TAttr => fail kids PyAttributeError
  | TMerge => raise_merge m kids
  | t =>
    let tp := match t with TAt i => Some i | _ => None end in
    match validate_sources tag idtag tp [] srcs kids with
    | VAttr => fail kids PyAttributeError
    | VMerge => raise_merge m kids
    | VOk ps =>
      match move_before ps tp kids with
      | Some kids' => ok kids'
      | None => fail kids PyValueError
      end
    end
  end.

Definition gen_swap (tag idtag : str) (m : xml) (ids : list (option str)) (kids : list xml)
  : res (list xml) :=
  match ids with
  | [a; b] =>
    match find_by_id tag idtag a kids with
    | FAttr => fail kids PyAttributeError
    | FNone => raise_merge m kids
    | FFound i =>
      match find_by_id tag idtag b kids with
      | FAttr => fail kids PyAttributeError
      | FNone => raise_merge m kids
      | FFound j => if Nat.eqb i j then raise_merge m kids else ok (swap_nodes i j kids)
      end
    end
  | _ => raise_merge m kids
  end.

(* remove the child at index i and insert the replacements from that index *)
Definition replace_with (i : nat) (new : list xml) (kids : list xml) : list xml :=
  insert_loop i new (remove_at i kids).

(* insert before the target item, or at the end of the story when the reference is blank *)
Definition gen_item_insert (m : xml) (tgt : option str) (new : list xml) (kids : list xml)
  : res (list xml) :=
  match tgt with
  | None => ok (insert_loop (length kids) new kids)
  | Some _ =>
    match find_item tgt kids with
    | FAttr => fail kids PyAttributeError
    | FNone => raise_merge m kids
    | FFound i => ok (insert_loop i new kids)
    end
  end.

Definition gen_item_replace (m : xml) (tgt : option str) (new : list xml) (kids : list xml)
  : res (list xml) :=
  match find_item tgt kids with
  | FAttr => fail kids PyAttributeError
  | FNone => raise_merge m kids
  | FFound i => ok (replace_with i new kids)
  end.

(* run an item-level edit inside the story with the given ID *)
Definition with_story (sid : option str) (kids : list xml) (missing : res (list xml))
           (f : list xml -> res (list xml)) : res (list xml) :=
  match find_story sid kids with
  | FAttr => fail kids PyAttributeError
  | FNone => missing
  | FFound i =>
    match nth_error kids i with
    | None => fail kids PyIndexError
    | Some s =>
      map_res (fun ik => update_nth i (fun s' => set_kids s' ik) kids) (f (kids_of s))
    end
  end.

(* roMetadataReplace: where a carried element goes *)
Fixpoint md_schema_index (schema : option str) (l : list xml) : option nat :=
  match l with
  | [] => None
  | c :: r =>
    if has_tag t_mosExternalMetadata c && ostr_eqb (findtext t_mosSchema (kids_of c)) schema
    then Some O else option_map S (md_schema_index schema r)
  end.
Definition md_index (src : xml) (l : list xml) : option nat :=
  if has_tag t_mosExternalMetadata src
  then md_schema_index (findtext t_mosSchema (kids_of src)) l
  else find_index (tag_of src) l.
Fixpoint md_loop (srcs : list xml) (kids : list xml) : list xml :=
  match srcs with
  | [] => kids
  | s :: r =>
    md_loop r (match md_index s kids with
               | Some i => replace_at i s kids
               | None => kids ++ [s]
               end)
  end.

(* ---- the merges.  Story-level and item-level ones act on the children of roCreate. *)
Section Merge.
Variable o : oracles.

(* {story.id for story in ro.stories}: evaluates the story listing *)
Definition known_story_ids (kids : list xml) : list (option str) :=
  map story_id (findall t_story kids).

Definition merge_kids (k : mclass) (m b : xml) (rc : xml) : res (list xml) :=
  let kids := kids_of rc in
  match k with
  | StorySend =>
    match convert_story_send b with
    | None => fail kids PyAttributeError
    | Some story =>
      match find_story (story_id story) kids with
      | FAttr => fail kids PyAttributeError
      | FNone => emit m StoryNotFound kids
      | FFound i => ok (insert_at i story (remove_at i kids))
      end
    end
  | StoryAppend => ok (kids ++ carried t_story b)
  | StoryDelete => delete_loop t_story t_storyID StoryNotFound m (id_tags t_storyID b) kids
  | StoryInsert =>
    match find_story (first_story_id b) kids with
    | FAttr => fail kids PyAttributeError
    | FNone => raise_merge m kids
    | FFound i =>
      match ro_stories_err o rc with
      | Some e => fail kids e
      | None => insert_dups m (known_story_ids kids) i (carried t_story b) kids
      end
    end
  | StoryMove =>
    match story_move_source b with
    | None => raise_merge m kids
    | Some src => gen_move t_story t_storyID m (story_move_target b) [src] kids
    end
  | StoryReplace =>
    match find_story (first_story_id b) kids with
    | FAttr => fail kids PyAttributeError
    | FNone => raise_merge m kids
    | FFound i =>
      match carried t_story b with
      | [] => raise_merge m kids
      | new => ok (replace_with i new kids)
      end
    end
  | ItemDelete =>
    with_story (first_story_id b) kids (raise_merge m kids)
      (delete_loop t_item t_itemID ItemNotFound m (id_tags t_itemID b))
  | ItemInsert =>
    with_story (first_story_id b) kids (raise_merge m kids)
      (gen_item_insert m (first_item_id b) (carried t_item b))
  | ItemMoveMultiple =>
    match first_story_id b with
    | None => raise_merge m kids
    | sid =>
      with_story sid kids (raise_merge m kids)
        (fun ik =>
           match imm_target b with
           | None => fail ik PyIndexError
           | Some tgt => gen_move t_item t_itemID m tgt (imm_sources b) ik
           end)
    end
  | ItemReplace =>
    with_story (first_story_id b) kids (raise_merge m kids)
      (gen_item_replace m (first_item_id b) (carried t_item b))
  | MetaDataReplace => ok (md_loop (kids_of b) kids)
  | ReadyToAir => ok kids
  | EAStoryReplace =>
    match find_story (ea_target_id t_storyID b) kids with
    | FAttr => fail kids PyAttributeError
    | FNone => raise_merge m kids
    | FFound i => ok (replace_with i (ea_carried t_story b) kids)
    end
  | EAItemReplace =>
    with_story (ea_target_id t_storyID b) kids (raise_merge m kids)
      (gen_item_replace m (ea_target_id t_itemID b) (ea_carried t_item b))
  | EAStoryDelete =>
    delete_loop t_story t_storyID StoryNotFound m (ea_source_ids t_storyID b) kids
  | EAItemDelete =>
    with_story (ea_target_id t_storyID b) kids (emit m StoryNotFound kids)
      (delete_loop t_item t_itemID ItemNotFound m (ea_source_ids t_itemID b))
  | EAStoryInsert =>
    match (match ea_target_id t_storyID b with
           | None => FFound (length kids)
           | sid => find_story sid kids
           end) with
    | FAttr => fail kids PyAttributeError
    | FNone => raise_merge m kids
    | FFound i =>
      match ro_stories_err o rc with
      | Some e => fail kids e
      | None => insert_dups m (known_story_ids kids) i (ea_carried t_story b) kids
      end
    end
  | EAItemInsert =>
    with_story (ea_target_id t_storyID b) kids (raise_merge m kids)
      (gen_item_insert m (ea_target_id t_itemID b) (ea_carried t_item b))
  | EAStorySwap => gen_swap t_story t_storyID m (ea_first_source_ids t_storyID b) kids
  | EAItemSwap =>
    with_story (ea_target_id t_storyID b) kids (raise_merge m kids)
      (gen_swap t_item t_itemID m (ea_first_source_ids t_itemID b))
  | EAStoryMove =>
    gen_move t_story t_storyID m (ea_target_id t_storyID b) (ea_source_ids t_storyID b) kids
  | EAItemMove =>
    with_story (ea_target_id t_storyID b) kids (raise_merge m kids)
      (gen_move t_item t_itemID m (ea_target_id t_itemID b) (ea_first_source_ids t_itemID b))
  (* not merges on roCreate's children; handled in [merge] *)
  | RunningOrder | RunningOrderReplace | RunningOrderEnd => ok kids
  end.

(* msg.merge(ro) on the whole running-order document *)
Definition merge (k : mclass) (ro m : xml) : res xml :=
  match base_of k m with
  | None => fail ro PyAttributeError
  | Some b =>
    match k with
    | RunningOrder => raise_merge m ro
    | RunningOrderReplace =>
      match find_index t_roCreate (kids_of ro) with
      | None => fail ro PyTypeError
      | Some i => ok (set_kids ro (replace_at i (set_tag b t_roCreate) (kids_of ro)))
      end
    | RunningOrderEnd =>
      ok (set_kids ro (kids_of ro ++ [Elem t_mosromgrmeta [] None None [b]]))
    | _ =>
      match find t_roCreate (kids_of ro) with
      | None => fail ro PyTypeError
      | Some rc =>
        map_res (fun k' => set_kids ro (update_first t_roCreate (fun e => set_kids e k') (kids_of ro)))
                (merge_kids k m b rc)
      end
    end
  end.

(* RunningOrder.__add__ *)
Definition add (ro : xml) (k : mclass) (m : xml) : res xml :=
  if ro_completed ro then fail ro MosCompletedMergeError else merge k ro m.

End Merge.
