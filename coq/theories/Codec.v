(* Codec.v — ElementTree.tostring(encoding='unicode') and a recursive-descent parser for the
   serialiser's image (with expat's end-of-line normalisation).  Definitions only. *)
From Coq Require Import List NArith Arith Bool.
Import ListNotations.
From Mos Require Import Str Xml.
Local Open Scope N_scope.

Definition LT := 60. Definition GT := 62. Definition AMP := 38. Definition QUOT := 34.
Definition SP := 32. Definition SL := 47. Definition EQ := 61. Definition SEMI := 59.

(* ---------- serialiser: ElementTree.tostring(encoding='unicode'), short_empty_elements *)
Definition esc_text_ch (c : N) : str :=
  if c =? AMP then [AMP;97;109;112;SEMI]
  else if c =? LT then [AMP;108;116;SEMI]
  else if c =? GT then [AMP;103;116;SEMI] else [c].
Definition esc_text (s : str) : str := flat_map esc_text_ch s.
Definition esc_attr_ch (c : N) : str :=
  if c =? AMP then [AMP;97;109;112;SEMI]
  else if c =? LT then [AMP;108;116;SEMI]
  else if c =? GT then [AMP;103;116;SEMI]
  else if c =? QUOT then [AMP;113;117;111;116;SEMI]
  else if c =? 13 then [AMP;35;49;51;SEMI]
  else if c =? 10 then [AMP;35;49;48;SEMI]
  else if c =? 9 then [AMP;35;48;57;SEMI] else [c].
Definition esc_attr (s : str) : str := flat_map esc_attr_ch s.
Definition ser_otext (t : option str) : str := match t with None => [] | Some x => esc_text x end.
Definition ser_attr (kv : str * str) : str := [SP] ++ fst kv ++ [EQ;QUOT] ++ esc_attr (snd kv) ++ [QUOT].
Definition falsy (t : option str) : bool := match t with None => true | Some [] => true | _ => false end.

Fixpoint ser (e : xml) : str :=
  match e with
  | Elem tag attrs text tail kids =>
    [LT] ++ tag ++ flat_map ser_attr attrs ++
    (if falsy text && (match kids with [] => true | _ => false end)
     then [SP;SL;GT]
     else [GT] ++ ser_otext text ++ flat_map ser kids ++ [LT;SL] ++ tag ++ [GT])
    ++ ser_otext tail
  end.

(* ---------- parser for the serialiser's image *)
Definition otext (s : str) : option str := match s with [] => None | _ => Some s end.

Fixpoint ptext (s : str) : option (str * str) :=
  match s with
  | [] => Some ([], [])
  | c :: r =>
    if c =? LT then Some ([], s)
    else if c =? AMP then
      match r with
      | 97 :: 109 :: 112 :: 59 :: r' => match ptext r' with Some (t, k) => Some (AMP :: t, k) | None => None end
      | 108 :: 116 :: 59 :: r' => match ptext r' with Some (t, k) => Some (LT :: t, k) | None => None end
      | 103 :: 116 :: 59 :: r' => match ptext r' with Some (t, k) => Some (GT :: t, k) | None => None end
      | _ => None
      end
    else if c =? 13 then
      (* expat end-of-line handling: CR LF and a lone CR are read as LF *)
      match r with
      | 10 :: r' => match ptext r' with Some (t, k) => Some (10 :: t, k) | None => None end
      | _ => match ptext r with Some (t, k) => Some (10 :: t, k) | None => None end
      end
    else match ptext r with Some (t, k) => Some (c :: t, k) | None => None end
  end.

Fixpoint pattrval (s : str) : option (str * str) :=
  match s with
  | [] => None
  | c :: r =>
    if c =? QUOT then Some ([], r)
    else if c =? LT then None
    else if c =? AMP then
      match r with
      | 97 :: 109 :: 112 :: 59 :: r' => match pattrval r' with Some (t, k) => Some (AMP :: t, k) | None => None end
      | 108 :: 116 :: 59 :: r' => match pattrval r' with Some (t, k) => Some (LT :: t, k) | None => None end
      | 103 :: 116 :: 59 :: r' => match pattrval r' with Some (t, k) => Some (GT :: t, k) | None => None end
      | 113 :: 117 :: 111 :: 116 :: 59 :: r' => match pattrval r' with Some (t, k) => Some (QUOT :: t, k) | None => None end
      | 35 :: 49 :: 51 :: 59 :: r' => match pattrval r' with Some (t, k) => Some (13 :: t, k) | None => None end
      | 35 :: 49 :: 48 :: 59 :: r' => match pattrval r' with Some (t, k) => Some (10 :: t, k) | None => None end
      | 35 :: 48 :: 57 :: 59 :: r' => match pattrval r' with Some (t, k) => Some (9 :: t, k) | None => None end
      | _ => None
      end
    else match pattrval r with Some (t, k) => Some (c :: t, k) | None => None end
  end.

Definition name_ch (c : N) : bool :=
  negb ((c =? SP) || (c =? GT) || (c =? SL) || (c =? EQ) || (c =? LT) || (c =? QUOT) || (c =? AMP)).
Fixpoint pname (s : str) : str * str :=
  match s with
  | [] => ([], [])
  | c :: r => if name_ch c then let (n, k) := pname r in (c :: n, k) else ([], s)
  end.

Fixpoint strip_prefix (p s : str) : option str :=
  match p, s with
  | [], _ => Some s
  | x :: p', y :: s' => if x =? y then strip_prefix p' s' else None
  | _, [] => None
  end.

Fixpoint pattrs (fuel : nat) (s : str) : option (list (str * str) * str) :=
  match fuel with
  | O => None
  | S f =>
    match strip_prefix [SP; SL] s with
    | Some _ => Some ([], s)                     (* " /" : end of a short tag *)
    | None =>
      match strip_prefix [SP] s with
      | None => Some ([], s)
      | Some r =>
        let (k, r1) := pname r in
        match k with
        | [] => None
        | _ =>
          match strip_prefix [EQ; QUOT] r1 with
          | None => None
          | Some r2 =>
            match pattrval r2 with
            | Some (v, r3) => match pattrs f r3 with Some (l, r4) => Some ((k, v) :: l, r4) | None => None end
            | None => None
            end
          end
        end
      end
    end
  end.

Fixpoint pkids (pe : str -> option (xml * str)) (g : nat) (s : str) : option (list xml * str) :=
  match g with
  | O => None
  | S g' =>
    match strip_prefix [LT; SL] s with
    | Some _ => Some ([], s)
    | None => match pe s with
           | Some (k, s') => match pkids pe g' s' with Some (ks, s'') => Some (k :: ks, s'') | None => None end
           | None => None
           end
    end
  end.

Definition pclose (tag : str) (attrs : list (str * str)) (tx : str) (kids : list xml) (r5 : str) : option (xml * str) :=
  match strip_prefix ([LT; SL] ++ tag ++ [GT]) r5 with
  | Some r7 =>
    match ptext r7 with
    | Some (tl, r8) => Some (Elem tag attrs (otext tx) (otext tl) kids, r8)
    | None => None
    end
  | None => None
  end.

Fixpoint pelem (fuel : nat) (s : str) : option (xml * str) :=
  match fuel with
  | O => None
  | S f =>
    match strip_prefix [LT] s with
    | None => None
    | Some r =>
      let (tag, r1) := pname r in
      match tag with [] => None | _ =>
      match pattrs (S (length r1)) r1 with
      | None => None
      | Some (attrs, r2) =>
        match strip_prefix [SP; SL; GT] r2 with
        | Some r3 =>
          match ptext r3 with
          | Some (tl, r4) => Some (Elem tag attrs None (otext tl) [], r4)
          | None => None
          end
        | None =>
          match strip_prefix [GT] r2 with
          | None => None
          | Some r3 =>
            match ptext r3 with
            | None => None
            | Some (tx, r4) =>
              match pkids (pelem f) (S (length r4)) r4 with
              | None => None
              | Some (kids, r5) => pclose tag attrs tx kids r5
              end
            end
          end
        end
      end end
    end
  end.

Definition parse (s : str) : option xml :=
  match pelem (S (length s)) s with Some (e, []) => Some e | _ => None end.

