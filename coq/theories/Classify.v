(* Classify.v — MosFile._classify and ElementAction._classify.  Definitions only. *)
From Coq Require Import List Bool String.
Import ListNotations.
From Mos Require Import Str Xml Outcome.

Inductive mclass :=
| RunningOrder | StorySend | StoryAppend | StoryDelete | StoryInsert | StoryMove | StoryReplace
| ItemDelete | ItemInsert | ItemMoveMultiple | ItemReplace
| RunningOrderReplace | MetaDataReplace | ReadyToAir | RunningOrderEnd
| EAStoryReplace | EAItemReplace | EAStoryDelete | EAItemDelete | EAStoryInsert | EAItemInsert
| EAStorySwap | EAItemSwap | EAStoryMove | EAItemMove.

Definition mclass_eqb (a b : mclass) : bool :=
  match a, b with
  | RunningOrder, RunningOrder | StorySend, StorySend | StoryAppend, StoryAppend
  | StoryDelete, StoryDelete | StoryInsert, StoryInsert | StoryMove, StoryMove
  | StoryReplace, StoryReplace | ItemDelete, ItemDelete | ItemInsert, ItemInsert
  | ItemMoveMultiple, ItemMoveMultiple | ItemReplace, ItemReplace
  | RunningOrderReplace, RunningOrderReplace | MetaDataReplace, MetaDataReplace
  | ReadyToAir, ReadyToAir | RunningOrderEnd, RunningOrderEnd
  | EAStoryReplace, EAStoryReplace | EAItemReplace, EAItemReplace
  | EAStoryDelete, EAStoryDelete | EAItemDelete, EAItemDelete
  | EAStoryInsert, EAStoryInsert | EAItemInsert, EAItemInsert
  | EAStorySwap, EAStorySwap | EAItemSwap, EAItemSwap
  | EAStoryMove, EAStoryMove | EAItemMove, EAItemMove => true
  | _, _ => false
  end.

(* the tag -> class table of MosFile._classify, in dictionary order; None = roElementAction *)
Definition tag_class_map : list (str * option mclass) :=
  [ (t_roCreate, Some RunningOrder); (t_roStorySend, Some StorySend);
    (t_roStoryAppend, Some StoryAppend); (t_roStoryDelete, Some StoryDelete);
    (t_roStoryInsert, Some StoryInsert); (t_roStoryMove, Some StoryMove);
    (t_roStoryReplace, Some StoryReplace); (t_roItemDelete, Some ItemDelete);
    (t_roItemInsert, Some ItemInsert); (t_roItemMoveMultiple, Some ItemMoveMultiple);
    (t_roItemReplace, Some ItemReplace); (t_roReplace, Some RunningOrderReplace);
    (t_roMetadataReplace, Some MetaDataReplace); (t_roReadyToAir, Some ReadyToAir);
    (t_roDelete, Some RunningOrderEnd); (t_roElementAction, None) ].

(* the (operation, target has itemID, source has itemID) -> class table *)
Definition ea_table : list ((str * bool * bool) * mclass) :=
  [ ((op_REPLACE, false, false), EAStoryReplace); ((op_REPLACE, true, false), EAItemReplace);
    ((op_DELETE, false, false), EAStoryDelete);  ((op_DELETE, false, true), EAItemDelete);
    ((op_INSERT, false, false), EAStoryInsert);  ((op_INSERT, true, false), EAItemInsert);
    ((op_SWAP, false, false), EAStorySwap);      ((op_SWAP, false, true), EAItemSwap);
    ((op_MOVE, false, false), EAStoryMove);      ((op_MOVE, true, true), EAItemMove) ].

Fixpoint ea_lookup (op : option str) (t s : bool) (tbl : list ((str * bool * bool) * mclass))
  : option mclass :=
  match tbl with
  | [] => None
  | ((o, t', s'), c) :: r =>
    if ostr_eqb op (Some o) && Bool.eqb t t' && Bool.eqb s s' then Some c else ea_lookup op t s r
  end.

Definition has_child (t : str) (e : xml) : bool :=
  match find t (kids_of e) with Some _ => true | None => false end.

(* ElementAction._classify on the roElementAction element *)
Definition classify_ea (ea : xml) : exn + mclass :=
  let op := attr_get t_operation (attrs_of ea) in
  let target_item :=
    match find t_element_target (kids_of ea) with
    | Some t => has_child t_itemID t
    | None => false
    end in
  match find t_element_source (kids_of ea) with
  | None => inl UnknownMosFileType
  | Some s =>
    match ea_lookup op target_item (has_child t_itemID s) ea_table with
    | Some c => inr c
    | None => inl UnknownMosFileType
    end
  end.

Fixpoint classify_in (root : xml) (tbl : list (str * option mclass)) : exn + mclass :=
  match tbl with
  | [] => inl UnknownMosFileType
  | (t, c) :: r =>
    match find t (kids_of root) with
    | None => classify_in root r
    | Some e => match c with Some k => inr k | None => classify_ea e end
    end
  end.

(* MosFile._classify *)
Definition classify (root : xml) : exn + mclass := classify_in root tag_class_map.

(* base_tag_name of each class *)
Definition base_tag_name (k : mclass) : str :=
  match k with
  | RunningOrder => t_roCreate | StorySend => t_roStorySend | StoryAppend => t_roStoryAppend
  | StoryDelete => t_roStoryDelete | StoryInsert => t_roStoryInsert | StoryMove => t_roStoryMove
  | StoryReplace => t_roStoryReplace | ItemDelete => t_roItemDelete | ItemInsert => t_roItemInsert
  | ItemMoveMultiple => t_roItemMoveMultiple | ItemReplace => t_roItemReplace
  | RunningOrderReplace => t_roReplace | MetaDataReplace => t_roMetadataReplace
  | ReadyToAir => t_roReadyToAir | RunningOrderEnd => t_roDelete
  | _ => t_roElementAction
  end.

(* RunningOrder.completed, and the completed property of every class (only RunningOrder
   and its subclass RunningOrderReplace can be completed) *)
Definition ro_completed (root : xml) : bool := has_child t_mosromgrmeta root.
Definition completed (k : mclass) (root : xml) : bool :=
  match k with
  | RunningOrder | RunningOrderReplace => ro_completed root
  | _ => false
  end.

Definition class_name : mclass -> str := Eval compute in fun k =>
  match k with
  | RunningOrder => lit "RunningOrder"%string | StorySend => lit "StorySend"%string
  | StoryAppend => lit "StoryAppend"%string | StoryDelete => lit "StoryDelete"%string
  | StoryInsert => lit "StoryInsert"%string | StoryMove => lit "StoryMove"%string
  | StoryReplace => lit "StoryReplace"%string | ItemDelete => lit "ItemDelete"%string
  | ItemInsert => lit "ItemInsert"%string | ItemMoveMultiple => lit "ItemMoveMultiple"%string
  | ItemReplace => lit "ItemReplace"%string | RunningOrderReplace => lit "RunningOrderReplace"%string
  | MetaDataReplace => lit "MetaDataReplace"%string | ReadyToAir => lit "ReadyToAir"%string
  | RunningOrderEnd => lit "RunningOrderEnd"%string | EAStoryReplace => lit "EAStoryReplace"%string
  | EAItemReplace => lit "EAItemReplace"%string | EAStoryDelete => lit "EAStoryDelete"%string
  | EAItemDelete => lit "EAItemDelete"%string | EAStoryInsert => lit "EAStoryInsert"%string
  | EAItemInsert => lit "EAItemInsert"%string | EAStorySwap => lit "EAStorySwap"%string
  | EAItemSwap => lit "EAItemSwap"%string | EAStoryMove => lit "EAStoryMove"%string
  | EAItemMove => lit "EAItemMove"%string
  end.
