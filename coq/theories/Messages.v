(* Messages.v — what each message class reads out of its document (the Python
   properties story / stories / item / items / source_story / target_story ...).
   Definitions only. *)
From Coq Require Import List Bool NArith.
Import ListNotations.
From Mos Require Import Str Xml Outcome Elements Classify.

(* self.base_tag *)
Definition base_of (k : mclass) (m : xml) : option xml := find (base_tag_name k) (kids_of m).

(* what evaluating self.message_id raises, if anything *)
Definition msg_id_exn (m : xml) : option exn :=
  match find t_messageID (kids_of m) with
  | None => Some PyAttributeError
  | Some e =>
    match text_of e with
    | None => Some PyTypeError
    | Some s => match parse_nat s with Some _ => None | None => Some PyValueError end
    end
  end.
Definition message_id (m : xml) : option N :=
  match find t_messageID (kids_of m) with
  | Some e => match text_of e with Some s => parse_nat s | None => None end
  | None => None
  end.
(* self.ro_id = base_tag.find('roID').text *)
Definition ro_id_of (k : mclass) (m : xml) : exn + option str :=
  match base_of k m with
  | None => inl PyAttributeError
  | Some b => match find t_roID (kids_of b) with Some e => inr (text_of e) | None => inl PyAttributeError end
  end.

(* texts of all direct <idtag> children, in message order, one per tag (blank = None) *)
Definition id_tags (idtag : str) (b : xml) : list (option str) :=
  map text_of (findall idtag (kids_of b)).

(* Story(base_tag).id / Item(base_tag).id : first ID tag of the element *)
Definition first_story_id (b : xml) : option str := elem_id t_storyID b.
Definition first_item_id (b : xml) : option str := elem_id t_itemID b.

(* carried stories / items *)
Definition carried (tag : str) (b : xml) : list xml := findall tag (kids_of b).

(* roElementAction parts *)
Definition ea_target (b : xml) : option xml := find t_element_target (kids_of b).
Definition ea_source (b : xml) : option xml := find t_element_source (kids_of b).
Definition ea_sources (b : xml) : list xml := findall t_element_source (kids_of b).
(* Story(element_target).id — an absent element_target gives None *)
Definition ea_target_id (idtag : str) (b : xml) : option str :=
  match ea_target b with Some t => elem_id idtag t | None => None end.
(* one ID per ID tag of every element_source *)
Definition ea_source_ids (idtag : str) (b : xml) : list (option str) :=
  flat_map (id_tags idtag) (ea_sources b).
(* ID tags of the first element_source only (swap, item move) *)
Definition ea_first_source_ids (idtag : str) (b : xml) : list (option str) :=
  match ea_source b with Some s => id_tags idtag s | None => [] end.
Definition ea_carried (tag : str) (b : xml) : list xml :=
  match ea_source b with Some s => carried tag s | None => [] end.

(* roStoryMove: source = first storyID tag; target = second, when present and not blank *)
Definition story_move_source (b : xml) : option (option str) :=
  match id_tags t_storyID b with [] => None | s :: _ => Some s end.
Definition story_move_target (b : xml) : option str :=
  match id_tags t_storyID b with _ :: t :: _ => t | _ => None end.

(* roItemMoveMultiple: last itemID tag = target (blank = end), the others = sources *)
Definition imm_target (b : xml) : option (option str) :=
  match rev (id_tags t_itemID b) with [] => None | t :: _ => Some t end.
Definition imm_sources (b : xml) : list (option str) :=
  removelast (id_tags t_itemID b).

(* roStorySend -> story: retag, splice the children of the first storyBody in its place,
   rename direct storyItem children of that body to item *)
Definition rename_story_item (c : xml) : xml :=
  if has_tag t_storyItem c then set_tag c t_item else c.
Fixpoint splice_body (l : list xml) : option (list xml) :=
  match l with
  | [] => None
  | c :: r =>
    if has_tag t_storyBody c then Some (map rename_story_item (kids_of c) ++ r)
    else match splice_body r with Some r' => Some (c :: r') | None => None end
  end.
Definition convert_story_send (b : xml) : option xml :=
  match splice_body (kids_of b) with
  | Some k => Some (set_kids (set_tag b t_story) k)
  | None => None
  end.
